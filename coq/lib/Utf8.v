(* UTF-8 as Go's unicode/utf8 package implements it, over [list byte].
   Property-free and shared: import with  From V Require Import lib.Bytes lib.Utf8.

     decode_rune s     = utf8.DecodeRuneInString(s)      (rune, width); invalid -> (0xFFFD, 1); "" -> (0xFFFD, 0)
     encode_utf8 cp    = the plain bit-packing into 1..4 bytes (no validity check; "generalised" UTF-8)
     encode_rune cp    = utf8.AppendRune(nil, cp)        surrogates and cp > 0x10FFFF -> EF BF BD
     rune_len cp       = utf8.RuneLen(cp)                0 stands for Go's -1
     runes s           = what `for i, r := range s` visits: the list of (rune, width) pairs
     valid_utf8 s      = utf8.ValidString(s)
     scrub s           = every invalid byte replaced by EF BF BD (what encoding/json, a browser's decoder and
                         []rune(s) -> string do; NOT strings.ToValidUTF8, which merges runs)

   Written with boolean range tests (no matches on byte literals) so that proofs can case-split cheaply;
   the continuation payload is [bN b - 128] after the 0x80..0xBF range check. *)
From Coq.Strings Require Import Byte String.
From Coq Require Import List NArith Bool Lia.
Import ListNotations.
From V Require Import lib.Bytes.
Open Scope N_scope.

Definition RuneError : N := 65533.
Definition MaxRune : N := 1114111.
Definition inr (lo hi : N) (b : byte) : bool := (lo <=? bN b) && (bN b <=? hi).
Definition cont (b : byte) : N := bN b - 128.

(* utf8.DecodeRuneInString *)
Definition decode_rune (s : bytes) : N * nat :=
  match s with
  | [] => (RuneError, 0%nat)
  | b0 :: r =>
      let n0 := bN b0 in
      if n0 <? 128 then (n0, 1%nat)
      else if inr 194 223 b0 then
        match r with
        | b1 :: _ => if inr 128 191 b1 then ((n0 - 192) * 64 + cont b1, 2%nat) else (RuneError, 1%nat)
        | _ => (RuneError, 1%nat)
        end
      else if inr 224 239 b0 then
        let lo := if n0 =? 224 then 160 else 128 in
        let hi := if n0 =? 237 then 159 else 191 in
        match r with
        | b1 :: b2 :: _ =>
            if inr lo hi b1 && inr 128 191 b2
            then ((n0 - 224) * 4096 + cont b1 * 64 + cont b2, 3%nat) else (RuneError, 1%nat)
        | _ => (RuneError, 1%nat)
        end
      else if inr 240 244 b0 then
        let lo := if n0 =? 240 then 144 else 128 in
        let hi := if n0 =? 244 then 143 else 191 in
        match r with
        | b1 :: b2 :: b3 :: _ =>
            if inr lo hi b1 && inr 128 191 b2 && inr 128 191 b3
            then ((n0 - 240) * 262144 + cont b1 * 4096 + cont b2 * 64 + cont b3, 4%nat) else (RuneError, 1%nat)
        | _ => (RuneError, 1%nat)
        end
      else (RuneError, 1%nat)
  end.

(* plain bit packing; total on N (anything >= 0x10000 takes the four-byte form) *)
Definition encode_utf8 (cp : N) : bytes :=
  if cp <? 128 then [Nb cp]
  else if cp <? 2048 then [Nb (192 + cp / 64); Nb (128 + cp mod 64)]
  else if cp <? 65536 then [Nb (224 + cp / 4096); Nb (128 + (cp / 64) mod 64); Nb (128 + cp mod 64)]
  else [Nb (240 + cp / 262144); Nb (128 + (cp / 4096) mod 64); Nb (128 + (cp / 64) mod 64); Nb (128 + cp mod 64)].

Definition is_surrogate (cp : N) : bool := (55296 <=? cp) && (cp <=? 57343).
Definition valid_rune (cp : N) : bool := (cp <=? MaxRune) && negb (is_surrogate cp).

(* utf8.AppendRune / EncodeRune *)
Definition encode_rune (cp : N) : bytes := if valid_rune cp then encode_utf8 cp else encode_utf8 RuneError.

(* utf8.RuneLen; 0 stands for -1 *)
Definition rune_len (cp : N) : nat :=
  if negb (valid_rune cp) then 0%nat
  else if cp <? 128 then 1%nat else if cp <? 2048 then 2%nat else if cp <? 65536 then 3%nat else 4%nat.

(* for i, r := range s *)
Fixpoint runes_fuel (fuel : nat) (s : bytes) : list (N * nat) :=
  match fuel with
  | O => []
  | S f =>
      match s with
      | [] => []
      | _ => let '(r, w) := decode_rune s in (r, w) :: runes_fuel f (skipn w s)
      end
  end.
Definition runes (s : bytes) : list (N * nat) := runes_fuel (length s) s.

(* a decoding step is an error step exactly when it yields (RuneError, 1) *)
Definition is_bad (rw : N * nat) : bool := (fst rw =? RuneError) && Nat.eqb (snd rw) 1.

Definition valid_utf8 (s : bytes) : bool := forallb (fun rw => negb (is_bad rw)) (runes s).

Definition replacement_bytes : bytes := [xef; xbf; xbd].

Fixpoint scrub_fuel (fuel : nat) (s : bytes) : bytes :=
  match fuel with
  | O => []
  | S f =>
      match s with
      | [] => []
      | _ => let rw := decode_rune s in
             (if is_bad rw then replacement_bytes else firstn (snd rw) s) ++ scrub_fuel f (skipn (snd rw) s)
      end
  end.
Definition scrub (s : bytes) : bytes := scrub_fuel (length s) s.

(* ------------------------------------------------------------------------------------------ *)
(* Basic facts (all about the definitions above only).                                        *)

Lemma bN_lt_256 b : bN b < 256.
Proof. destruct b; vm_compute; reflexivity. Qed.

Lemma Nb_bN b : Nb (bN b) = b.
Proof. unfold Nb, bN. rewrite Byte.of_to_N. reflexivity. Qed.

Lemma bN_Nb n : n < 256 -> bN (Nb n) = n.
Proof.
  intros H. unfold Nb, bN. destruct (Byte.of_N n) as [b|] eqn:E.
  - apply Byte.to_of_N in E. exact E.
  - apply Byte.of_N_None_iff in E. lia.
Qed.

Lemma bN_inj a b : bN a = bN b -> a = b.
Proof. intros H. rewrite <- (Nb_bN a), <- (Nb_bN b), H. reflexivity. Qed.

(* case analysis helpers for [decode_rune] *)
Ltac split_decode H :=
  cbv zeta in H;
  repeat match type of H with
  | context [match ?l with [] => _ | _ :: _ => _ end] => destruct l
  | context [if ?c then _ else _] => let E := fresh "E" in destruct c eqn:E
  end.

Ltac norm_hyps :=
  repeat match goal with E : _ && _ = true |- _ => apply andb_prop in E as [? ?] end;
  repeat match goal with E : inr _ _ _ = true |- _ => unfold inr in E; apply andb_prop in E as [? ?] end;
  repeat match goal with
  | E : (_ <=? _) = true |- _ => apply N.leb_le in E
  | E : (_ <? _) = true |- _ => apply N.ltb_lt in E
  | E : (_ <? _) = false |- _ => apply N.ltb_ge in E
  | E : (_ =? _) = true |- _ => apply N.eqb_eq in E
  | E : (_ =? _) = false |- _ => apply N.eqb_neq in E
  end;
  repeat match goal with H : context [if ?c then _ else _] |- _ => let E := fresh "E" in destruct c eqn:E end;
  repeat match goal with
  | E : (_ =? _) = true |- _ => apply N.eqb_eq in E
  | E : (_ =? _) = false |- _ => apply N.eqb_neq in E
  end.

(* every step on a non-empty string consumes between 1 and 4 bytes, never more than there are *)
Lemma decode_width s r w : s <> [] -> decode_rune s = (r, w) -> (1 <= w <= length s)%nat /\ (w <= 4)%nat.
Proof.
  intros Hne H. destruct s as [|b0 t]; [congruence|]. unfold decode_rune in H.
  repeat match type of H with
  | (if ?c then _ else _) = _ => destruct c
  | (match ?l with [] => _ | _ :: _ => _ end) = _ => destruct l
  | (let _ := _ in _) = _ => cbv zeta in H
  end; inversion H; subst; cbn [length]; lia.
Qed.

(* a rune below 0x80 comes from exactly that one byte *)
Lemma decode_ascii b t r w : decode_rune (b :: t) = (r, w) -> r < 128 -> r = bN b /\ w = 1%nat.
Proof.
  unfold decode_rune. intros H Hr.
  split_decode H; inversion H; subst; norm_hyps; unfold RuneError, cont in *; try (split; reflexivity); lia.
Qed.

Lemma decode_ascii_byte b t : bN b < 128 -> decode_rune (b :: t) = (bN b, 1%nat).
Proof. intros H. unfold decode_rune. apply N.ltb_lt in H. rewrite H. reflexivity. Qed.

(* a byte >= 0x80 never decodes to a rune below 0x80 *)
Lemma decode_hi b t r w : 128 <= bN b -> decode_rune (b :: t) = (r, w) -> 128 <= r.
Proof.
  unfold decode_rune. intros Hb H.
  split_decode H; inversion H; subst; norm_hyps; unfold RuneError, cont in *; lia.
Qed.

(* a continuation byte (0x80..0xBF) at the start is an error step *)
Lemma decode_cont_byte b t : inr 128 191 b = true -> decode_rune (b :: t) = (RuneError, 1%nat).
Proof.
  intros H. unfold decode_rune. unfold inr in *. apply andb_prop in H as [H1 H2].
  apply N.leb_le in H1. apply N.leb_le in H2.
  assert (bN b <? 128 = false) as -> by (apply N.ltb_ge; lia).
  assert ((194 <=? bN b) = false) as -> by (apply N.leb_gt; lia). cbn [andb].
  assert ((224 <=? bN b) = false) as -> by (apply N.leb_gt; lia). cbn [andb].
  assert ((240 <=? bN b) = false) as -> by (apply N.leb_gt; lia). reflexivity.
Qed.

(* a multi-byte step copies a lead byte followed by continuation bytes *)
Lemma decode_multi_conts s r w : decode_rune s = (r, w) -> (2 <= w)%nat ->
  forallb (fun b => inr 128 191 b) (skipn 1 (firstn w s)) = true.
Proof.
  intros H Hw. destruct s as [|b0 t]; [cbn in H; inversion H; subst; lia|]. unfold decode_rune in H.
  split_decode H; inversion H; subst; try lia; cbn [firstn skipn forallb];
  repeat match goal with E : _ && _ = true |- _ => apply andb_prop in E as [? ?] end;
  repeat match goal with
  | E : inr ?lo ?hi ?b = true |- context [inr 128 191 ?b] =>
      let K := fresh in
      assert (K : inr 128 191 b = true) by
        (unfold inr in *; apply andb_prop in E as [? ?]; apply andb_true_intro; split;
         [ apply N.leb_le; repeat match goal with H : context [if ?c then _ else _] |- _ => destruct c end;
           repeat match goal with H : (_ <=? _) = true |- _ => apply N.leb_le in H end; lia
         | apply N.leb_le; repeat match goal with H : context [if ?c then _ else _] |- _ => destruct c end;
           repeat match goal with H : (_ <=? _) = true |- _ => apply N.leb_le in H end; lia ]);
      rewrite K; clear E
  end; reflexivity.
Qed.

(* U+2028 / U+2029 arise only from their three-byte encodings E2 80 A8 / E2 80 A9 *)
Lemma decode_2028 s r w : decode_rune s = (r, w) -> (r = 8232 \/ r = 8233) ->
  w = 3%nat /\ firstn 3 s = encode_utf8 r.
Proof.
  intros H Hr. destruct s as [|b0 t]; [cbn in H; inversion H; subst; unfold RuneError in Hr; lia|].
  unfold decode_rune in H. split_decode H; inversion H; subst; norm_hyps; unfold RuneError, cont in *; try lia.
  all: split; [reflexivity|].
  all: assert (bN b0 = 226 /\ bN b = 128 /\ (bN b1 = 168 \/ bN b1 = 169)) as [A0 [A1 A2]] by lia.
  all: cbn [firstn]; rewrite <- (Nb_bN b0), <- (Nb_bN b), <- (Nb_bN b1), A0, A1.
  all: destruct A2 as [A2|A2]; rewrite A2; vm_compute; reflexivity.
Qed.

(* ... and those encodings always decode to them *)
Lemma decode_e280 t (c : byte) : (bN c = 168 \/ bN c = 169) ->
  decode_rune (xe2 :: x80 :: c :: t) = (8192 + (bN c - 128), 3%nat).
Proof.
  intros [H|H].
  - assert (c = xa8) as -> by (apply bN_inj; rewrite H; reflexivity). vm_compute. reflexivity.
  - assert (c = xa9) as -> by (apply bN_inj; rewrite H; reflexivity). vm_compute. reflexivity.
Qed.

Lemma encode_ascii_byte b : bN b < 128 -> encode_utf8 (bN b) = [b].
Proof. intros H. unfold encode_utf8. apply N.ltb_lt in H. rewrite H. rewrite Nb_bN. reflexivity. Qed.

Lemma runes_fuel_nil f : runes_fuel f [] = [].
Proof. destruct f; reflexivity. Qed.

Lemma scrub_fuel_nil f : scrub_fuel f [] = [].
Proof. destruct f; reflexivity. Qed.
