(* The editor's notifications about templ documents as they appear ON THE WIRE (JSON-RPC params of
   textDocument/didOpen, textDocument/didChange, textDocument/didClose), shared by the C17 wire-level
   specification (spec/SpliceWire.v) and model (model/DocWire.v).
   A JSON object member can be absent, null, or present with a value; unknown extra members are not represented
   (the specification gives them no meaning and encoding/json skips them). *)
From Coq.Strings Require Import Byte String.
From Coq Require Import List NArith.
Import ListNotations.
From V Require Import lib.Bytes lib.Lsp.

Inductive member (A : Type) : Type :=
| Absent
| Null
| Present (a : A).
Arguments Absent {A}.
Arguments Null {A}.
Arguments Present {A} a.

(* one element of DidChangeTextDocumentParams.contentChanges: {"range":..., "rangeLength":..., "text":...} *)
Record wchange := { wrange : member range; wrange_length : member N; wtext : bytes }.

(* one notification; u is textDocument.uri *)
Inductive note :=
| DidOpen (u : bytes) (s : bytes)
| DidChange (u : bytes) (cs : list wchange)
| DidClose (u : bytes).
