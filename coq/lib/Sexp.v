(* Netstring-like wire format used to ship ASTs and environments from the Go harness to the extracted model. *)
From Coq.Strings Require Import Byte String.
From Coq Require Import List Arith NArith Bool Lia.
Import ListNotations.
From V Require Import lib.Bytes.
Local Open Scope nat_scope.

(* wire format:  atom = 'a' <decimal len> ':' <bytes>     list = 'l' <decimal count> ':' item* *)
Inductive sexp := Atom (b : bytes) | SList (l : list sexp).

Definition sdigit (b : byte) : option nat :=
  let n := Byte.to_nat b in if (48 <=? n)%nat && (n <=? 57)%nat then Some (n - 48)%nat else None.
Fixpoint read_num (acc : nat) (s : bytes) : option (nat * bytes) :=
  match s with
  | [] => None
  | b :: r => if Byte.eqb b x3a then Some (acc, r)
              else match sdigit b with Some d => read_num (acc * 10 + d) r | None => None end
  end.

Fixpoint parse (fuel : nat) (s : bytes) {struct fuel} : option (sexp * bytes) :=
  match fuel with
  | O => None
  | S f =>
      match s with
      | x61 :: r => match read_num 0 r with
                    | Some (n, r') => if (n <=? length r')%nat then Some (Atom (firstn n r'), skipn n r') else None
                    | None => None end
      | x6c :: r => match read_num 0 r with
                    | Some (n, r') =>
                        (fix items (k : nat) (s : bytes) (acc : list sexp) {struct k} : option (sexp * bytes) :=
                           match k with
                           | O => Some (SList (rev acc), s)
                           | S k' => match parse f s with Some (x, s') => items k' s' (x :: acc) | None => None end
                           end) n r' []
                    | None => None end
      | _ => None
      end
  end.
Definition parse_all (s : bytes) : option sexp :=
  match parse (S (length s)) s with Some (x, []) => Some x | _ => None end.
