(* HTML node trees as golang.org/x/net/html represents them (type Node: Type, Data, Namespace, Attr,
   children), plus the flat encoding used to move trees between the Go harness and the extracted model.
   Property-free. *)
From Coq.Strings Require Import Byte String.
From Coq Require Import List NArith Bool.
Import ListNotations.
From V Require Import lib.Bytes.
Open Scope N_scope.

(* html.Attribute{Namespace, Key, Val} *)
Notation attr := (bytes * bytes * bytes)%type.

(* kind = html.NodeType: 0 ErrorNode, 1 TextNode, 2 DocumentNode, 3 ElementNode, 4 CommentNode, 5 DoctypeNode, 6 RawNode *)
Inductive node := Node (kind : N) (data ns : bytes) (attrs : list attr) (kids : list node).

Definition kind_of (n : node) : N := match n with Node k _ _ _ _ => k end.
Definition data_of (n : node) : bytes := match n with Node _ d _ _ _ => d end.
Definition kids_of (n : node) : list node := match n with Node _ _ _ _ c => c end.

Definition K_text : N := 1.
Definition K_document : N := 2.
Definition K_element : N := 3.
Definition K_comment : N := 4.
Definition K_doctype : N := 5.

(* ---- flat encoding: "(" kind data ns nattrs (ns key val)* child* ")" , one byte string per item ---- *)
Definition T_open : bytes := [x28].
Definition T_close : bytes := [x29].

Fixpoint ser_attrs (a : list attr) : list bytes :=
  match a with
  | [] => []
  | (n, k, v) :: r => n :: k :: v :: ser_attrs r
  end.

Fixpoint ser (t : node) : list bytes :=
  match t with
  | Node k d n a c =>
      T_open :: dec k :: d :: n :: dec (N.of_nat (length a)) :: ser_attrs a
        ++ (fix sers (l : list node) : list bytes :=
              match l with [] => [] | x :: r => ser x ++ sers r end) c
        ++ [T_close]
  end.

Fixpoint take_attrs (n : nat) (l : list bytes) : option (list attr * list bytes) :=
  match n with
  | O => Some ([], l)
  | S m => match l with
           | a :: k :: v :: r =>
               match take_attrs m r with Some (as_, r') => Some ((a, k, v) :: as_, r') | None => None end
           | _ => None
           end
  end.

(* stack of open nodes: header and the children collected so far (reversed) *)
Notation frame := (N * bytes * bytes * list attr * list node)%type.

Definition num (b : bytes) : N := match undec b with Some n => n | None => 0 end.

Fixpoint deser_aux (fuel : nat) (l : list bytes) (stack : list frame) : option node :=
  match fuel with
  | O => None
  | S f =>
      match l with
      | [] => None
      | tok :: r =>
          if bytes_eqb tok T_close then
            match stack with
            | [] => None
            | (k, d, n, a, c) :: st =>
                let t := Node k d n a (rev c) in
                match st with
                | [] => match r with [] => Some t | _ => None end
                | (k', d', n', a', c') :: st' => deser_aux f r ((k', d', n', a', t :: c') :: st')
                end
            end
          else if bytes_eqb tok T_open then
            match r with
            | k :: d :: n :: na :: r' =>
                match take_attrs (N.to_nat (num na)) r' with
                | Some (a, r'') => deser_aux f r'' ((num k, d, n, a, []) :: stack)
                | None => None
                end
            | _ => None
            end
          else None
      end
  end.

Definition deser (l : list bytes) : option node := deser_aux (S (length l)) l [].

(* structural equality *)
Definition attr_eqb (x y : attr) : bool :=
  match x, y with (a, b, c), (a', b', c') => bytes_eqb a a' && bytes_eqb b b' && bytes_eqb c c' end.
Fixpoint list_eqb {A} (e : A -> A -> bool) (x y : list A) : bool :=
  match x, y with
  | [], [] => true
  | a :: x', b :: y' => e a b && list_eqb e x' y'
  | _, _ => false
  end.
Definition ser_eqb (x y : node) : bool := list_eqb bytes_eqb (ser x) (ser y).
