import glob, json, os
HOOK_COMMITS = []
try:
    HOOK_COMMITS = json.load(open(os.path.join(os.path.dirname(__file__), "hook_commits.json")))
except Exception:
    pass
ALL = ["C%02d" % i for i in range(1, 21)]
CHECKS = [json.load(open(f)) for f in sorted(glob.glob(os.path.join(os.path.dirname(__file__), "manifest.d", "C*.json")))]
_claimed = {c["id"] for c in CHECKS}
NOT_APPLICABLE = [{"property_id": i, "reason": "not yet claimed: the model, theorems and correspondence for this property are being moved in from the design-phase prototypes (DESIGN.md section 9); nothing about the technique rules it out"} for i in ALL if i not in _claimed]
