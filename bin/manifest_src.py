HOOK_COMMITS = []
ALL = ["C%02d" % i for i in range(1, 21)]
CHECKS = [
 {"id": "C04",
  "text": "Machine-checked theorems over a Gallina model of templ.URL and of the generator's URL-sink dispatch: for every byte string the sanitiser returns the failure URL or returns its input and the WHATWG scheme extraction of that input is absent or allow-listed (C04_url_sound), plus idempotence and dispatch for every letter case. The model is tied to /repo on every run by running the extracted model and the real templ.URL / generator on the same inputs (exhaustive over a 24-symbol adversarial alphabet to length 4/5, vectors, mutations) and by evaluating the extracted specification predicate on the implementation's own output.",
  "note": "Trusted: Coq kernel + vm_compute; spec/Whatwg.v as the definition of what a browser resolves; extraction (ExtrOcamlBasic only) and ocaml/driver.ml; the Go harness. Assurance = min(theorem over the model, sampled equality model = code). Character references are assumed decoded by the HTML layer (C01).",
  "technique": "Rocq theorem over hand-written model + extracted-model differential correspondence"},
]
_claimed = {c["id"] for c in CHECKS}
NOT_APPLICABLE = [{"property_id": i, "reason": "not yet claimed: the model, theorems and correspondence for this property are being moved in from the design-phase prototypes (DESIGN.md section 9); nothing about the technique rules it out"} for i in ALL if i not in _claimed]
